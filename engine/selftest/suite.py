#!/usr/bin/env python3
"""Self-test of the checkers: every mutant below must make the named check FIRE (exit 1) on a scratch copy of /repo.
A surviving mutant is a checker-quality signal (printed, exit 1 for this script), never a VIOLATION of mdk.
usage: suite.py [--only C01,C05] [-j N]        (scratch copies live under $TMPDIR and are removed)"""
import argparse
import concurrent.futures as cf
import json
import os
import shutil
import subprocess
import sys
import tempfile

HERE = os.path.dirname(os.path.abspath(__file__))
VERIF = os.path.dirname(os.path.dirname(HERE))
P = os.path.join(HERE, "patches")

CORE = "crates/mdk-core/src/"
SQL = "crates/mdk-sqlite-storage/src/"
MEM = "crates/mdk-memory-storage/src/"
TR = "crates/mdk-storage-traits/src/"

# (name, expected firing checks, [patch files], [(file, old, new)...])
MUTANTS = [
    ("unfix-F3-lookback", ["C02"], ["unfix_F3_lookback.diff"], []),
    ("unfix-F4-message-epoch", ["C02"], ["unfix_F4_message_epoch.diff"], []),
    ("unfix-F5-verify-id", ["C04"], ["unfix_F5_verify_id.diff"], []),
    ("unfix-F8-pagination", ["C18", "C10"], ["unfix_F8_pagination.diff"], []),
    ("unfix-F9-cascade", ["C09"], ["unfix_F9_cascade.diff"], []),
    ("unfix-F10-retake", ["C09"], ["unfix_F10_retake.diff"], []),
    ("unfix-F13-exact-decode", ["C15"], ["unfix_F13_exact_decode.diff"], []),
    ("unfix-F14-welcome-active", ["C16"], ["unfix_F14_welcome_active.diff"], []),
    ("unfix-F7-decode-after-merge", ["C06"], ["unfix_F7_decode_after_merge.diff"], []),
    ("unfix-F12-log-snapshot-name", ["C14"], ["unfix_F12_log_snapshot_name.diff"], []),
    ("unfix-F14c-decline", ["C16"], ["unfix_F14c_decline.diff"], []),
    ("unfix-F17-epoch-hint-by-hash", ["C17"], ["unfix_F17_epoch_hint_by_hash.diff"], []),
    ("unfix-F18-welcome-id-late", ["C16", "C06"], ["unfix_F18_welcome_id_late.diff"], []),
    ("unfix-F21-welcome-marker-first", ["C12"], ["unfix_F21_welcome_marker_first.diff"], []),
    ("unfix-F23-pointer-after-rollback", ["C18"], ["unfix_F23_pointer_after_rollback.diff"], []),
    ("unfix-F24-own-leaf-test", ["C03"], ["unfix_F24_own_leaf_test.diff"], []),
    ("c12-second-unbracketed-write-in-save-message", ["C12"], [], [(SQL + "messages.rs", """                    message.state.as_str(),
                ],
            )
            .map_err(into_message_err)?;

            Ok(())""", """                    message.state.as_str(),
                ],
            )
            .map_err(into_message_err)?;

            conn.execute(
                "UPDATE groups SET last_message_processed_at = ? WHERE mls_group_id = ? AND (last_message_processed_at IS NULL OR last_message_processed_at < ?)",
                params![
                    message.processed_at.as_secs(),
                    message.mls_group_id.as_slice(),
                    message.processed_at.as_secs(),
                ],
            )
            .map_err(into_message_err)?;

            Ok(())""")]),
    ("c12-commit-marker-before-sync", ["C12"], [], [(CORE + "messages/commit.rs", """        // Sync the stored group metadata with the updated MLS group state
        self.sync_group_metadata_from_mls(&group_id)?;

        // Save a processed message so we don't reprocess
        let processed_message = super::create_processed_message_record(
            event.id,
            None,
            Some(mls_group.epoch().as_u64()),
            Some(group_id.clone()),
            message_types::ProcessedMessageState::ProcessedCommit,
            None,
        );

        self.save_processed_message_record(processed_message)?;
        Ok(())""", """        // Save a processed message so we don't reprocess
        let processed_message = super::create_processed_message_record(
            event.id,
            None,
            Some(mls_group.epoch().as_u64()),
            Some(group_id.clone()),
            message_types::ProcessedMessageState::ProcessedCommit,
            None,
        );

        self.save_processed_message_record(processed_message)?;

        // Sync the stored group metadata with the updated MLS group state
        self.sync_group_metadata_from_mls(&group_id)?;
        Ok(())""")]),
    ("c20-release-loop-skips-two", ["C20"], [], [(CORE + "epoch_snapshots.rs", '                for (i, snap) in removed.into_iter().enumerate() {\n                    // Skip the first one (index 0) - it was already consumed by rollback\n                    if i > 0 {\n                        let _ = storage.release_group_snapshot(&snap.group_id, &snap.snapshot_name);\n                    }\n                }', '                for snap in removed.into_iter().skip(2) {\n                    let _ = storage.release_group_snapshot(&snap.group_id, &snap.snapshot_name);\n                }')]),
    ("c20-release-loop-index-ne-one", ["C20"], [], [(CORE + "epoch_snapshots.rs", "                    if i > 0 {\n                        let _ = storage.release_group_snapshot", "                    if i != 1 {\n                        let _ = storage.release_group_snapshot")]),
    ("c16-welcome-admin-limit-stricter-than-group", ["C16", "C06"], [], [(MEM + "lib.rs", "pub const DEFAULT_MAX_ADMINS_PER_WELCOME: usize = 100;", "pub const DEFAULT_MAX_ADMINS_PER_WELCOME: usize = 50;")]),
    ("c16-sqlite-welcome-name-limit-stricter", ["C16", "C06"], [], [(SQL + "welcomes.rs", "validate_string_length(&welcome.group_name, MAX_GROUP_NAME_LENGTH, \"Group name\")", "validate_string_length(&welcome.group_name, MAX_GROUP_NAME_LENGTH / 2, \"Group name\")")]),
    ("c01-comparator-le", ["C01", "C07"], [], [(CORE + "epoch_snapshots.rs", "if candidate_ts < snapshot.applied_commit_ts {", "if candidate_ts <= snapshot.applied_commit_ts {")]),
    ("c01-id-tiebreak-le", ["C01", "C07"], [], [(CORE + "epoch_snapshots.rs", "if candidate_id.to_hex() < snapshot.applied_commit_id.to_hex() {", "if candidate_id.to_hex() <= snapshot.applied_commit_id.to_hex() {")]),
    ("c03-no-eviction-return", ["C03"], [], [(CORE + "messages/commit.rs", """        if !mls_group.is_active() {
            return self.handle_local_member_eviction(&group_id, event);
        }""", """        if !mls_group.is_active() {
            tracing::debug!("evicted");
        }""")]),
    ("c03-welcome-active", ["C03", "C16"], [], [(CORE + "welcomes.rs", "state: group_types::GroupState::Pending,", "state: group_types::GroupState::Active,")]),
    ("c04-author-unchecked", ["C04"], [], [(CORE + "messages/application.rs", "self.verify_rumor_author(&rumor.pubkey, sender_credential)?;", "let _ = self.verify_rumor_author(&rumor.pubkey, sender_credential);")]),
    ("c05-authorization-unchecked", ["C05"], [], [(CORE + "messages/commit.rs", "self.validate_commit_authorization(mls_group, &staged_commit, commit_sender)?;", "let _ = self.validate_commit_authorization(mls_group, &staged_commit, commit_sender);")]),
    ("c05-whitelist-remove", ["C05"], [], [(CORE + "messages/validation.rs", """            .all(|p| matches!(p.proposal(), Proposal::Update(_)))
        {
            return false;""", """            .all(|p| matches!(p.proposal(), Proposal::Update(_) | Proposal::Remove(_)))
        {
            return false;""")]),
    ("c05-nonadmin-add-ok", ["C05"], [], [(CORE + "messages/validation.rs", "                    (false, false) => {", """                    (false, false) if staged_commit.add_proposals().next().is_some() => Ok(()),
                    (false, false) => {""")]),
    ("c05-autocommit-or", ["C05"], [], [(CORE + "messages/proposal.rs", "if is_self_remove && receiver_is_admin {", "if is_self_remove || receiver_is_admin {")]),
    ("c07-dedup-only-failed", ["C07"], [], [(CORE + "messages/process.rs", "            if is_failed || is_epoch_invalidated {", "            if is_failed {")]),
    ("c07-failure-drops-link", ["C07"], [], [(CORE + "messages/error_handling.rs", "let message_event_id = existing_record.as_ref().and_then(|r| r.message_event_id);", "let message_event_id = None;")]),
    ("c08-sync-skips-routing-id", ["C08"], [], [(CORE + "groups.rs", "        stored_group.nostr_group_id = group_data.nostr_group_id;\n", "")]),
    ("c08-sync-conditional", ["C08"], [], [(CORE + "messages/commit.rs", """        // Sync the stored group metadata with the updated MLS group state
        self.sync_group_metadata_from_mls(&group_id)?;""", """        // Sync the stored group metadata with the updated MLS group state
        if mls_group.epoch().as_u64() % 2 == 0 {
            self.sync_group_metadata_from_mls(&group_id)?;
        }""")]),
    ("c08-memory-stale-index", ["C08"], [], [(MEM + "groups.rs", "            nostr_id_cache.pop(&existing_group.nostr_group_id);", "            let _ = &existing_group.nostr_group_id;")]),
    ("c09-unscoped-delete", ["C09"], [], [(SQL + "lib.rs", """"DELETE FROM group_relays WHERE mls_group_id = ?",
                [group_id_bytes],""", """"DELETE FROM group_relays",
                [],""")]),
    ("c09-memory-retain-all", ["C09"], [], [(MEM + "lib.rs", "            .retain(|(gid, _, _), _| *gid != mls_group_id_bytes);", "            .retain(|(_gid, _, _), _| false);")]),
    ("c09-new-column", ["C09"], [], [("crates/mdk-sqlite-storage/migrations/V004__add_self_update_tracking.sql", "ALTER TABLE groups ADD COLUMN last_self_update_at INTEGER NOT NULL DEFAULT 0;",
                                      "ALTER TABLE groups ADD COLUMN last_self_update_at INTEGER NOT NULL DEFAULT 0;\nALTER TABLE groups ADD COLUMN muted INTEGER NOT NULL DEFAULT 0;")]),
    ("c10-retry-query-loose", ["C10", "C02"], [], [(SQL + "messages.rs", """                     WHERE mls_group_id = ? AND state = 'failed' AND epoch IS NULL",""", """                     WHERE mls_group_id = ? AND state = 'failed'",""")]),
    ("c10-memory-ge", ["C10", "C02"], [], [(MEM + "messages.rs", """                    && msg_epoch > epoch
                {
                    message.state = MessageState::EpochInvalidated;""", """                    && msg_epoch >= epoch
                {
                    message.state = MessageState::EpochInvalidated;""")]),
    ("c10-from-str-wrong", ["C10"], [], [(TR + "messages/types.rs", '            "processed_commit" => Ok(Self::ProcessedCommit),', '            "processed_commit" => Ok(Self::Processed),')]),
    ("c10-upsert-drops-epoch", ["C10"], [], [(SQL + "messages.rs", "                 wrapper_event_id = excluded.wrapper_event_id,\n                 epoch = excluded.epoch,", "                 wrapper_event_id = excluded.wrapper_event_id,")]),
    ("c10-data-type-mixup", ["C10"], [], [(MEM + "lib.rs", "            .write(group_id, GroupDataType::Tree, tree)", "            .write(group_id, GroupDataType::Context, tree)")]),
    ("c11-hydrate-epoch-const", ["C11"], [], [(CORE + "epoch_snapshots.rs", """            group_id: group_id.clone(),
            epoch,
            applied_commit_id: commit_id,
            applied_commit_ts: 0,""", """            group_id: group_id.clone(),
            epoch: 0,
            applied_commit_id: commit_id,
            applied_commit_ts: 0,""")]),
    ("c12-begin-unchecked", ["C12"], [], [(SQL + "lib.rs", """        // Begin transaction for atomicity - critical to prevent data loss on failure
        conn.execute("BEGIN IMMEDIATE", [])
            .map_err(|e| Error::Database(e.to_string()))?;""", """        // Begin transaction for atomicity - critical to prevent data loss on failure
        let _ = conn.execute("BEGIN IMMEDIATE", []);""")]),
    ("c12-relays-delete-outside", ["C12"], [], [(SQL + "groups.rs", """            let result: Result<(), GroupError> = (|| {
                conn.execute(
                    "DELETE FROM group_relays WHERE mls_group_id = ?",
                    params![group_id.as_slice()],
                )
                .map_err(into_group_err)?;
""", """            conn.execute(
                    "DELETE FROM group_relays WHERE mls_group_id = ?",
                    params![group_id.as_slice()],
                )
                .map_err(into_group_err)?;
            let result: Result<(), GroupError> = (|| {
""")]),
    ("c18-orderby-swapped", ["C18", "C10"], [], [(SQL + "groups.rs", """                    "SELECT * FROM messages WHERE mls_group_id = ? \\
                     ORDER BY processed_at DESC, created_at DESC, id DESC \\
                     LIMIT ? OFFSET ?\"""", """                    "SELECT * FROM messages WHERE mls_group_id = ? \\
                     ORDER BY processed_at DESC, id DESC, created_at DESC \\
                     LIMIT ? OFFSET ?\"""")]),
    ("c18-memory-wrong-comparator", ["C18", "C10"], [], [(MEM + "groups.rs", "                        messages.sort_by(|a, b| b.processed_at_order_cmp(a));", "                        messages.sort_by(|a, b| b.display_order_cmp(a));")]),
    ("c18-comparator-drops-id", ["C18", "C10"], [], [(TR + "messages/types.rs", """        a_processed_at
            .cmp(&b_processed_at)
            .then_with(|| a_created_at.cmp(&b_created_at))
            .then_with(|| a_id.cmp(&b_id))""", """        a_processed_at
            .cmp(&b_processed_at)
            .then_with(|| a_created_at.cmp(&b_created_at))""")]),
    ("c18-pointer-lt", ["C18"], [], [(TR + "groups/types.rs", "                .is_gt()", "                .is_lt()")]),
    ("c17-no-hash-check", ["C17"], [], [(CORE + "encrypted_media/manager.rs", """        if calculated_hash != reference.original_hash {
            return Err(EncryptedMediaError::HashVerificationFailed);
        }
""", """        let _ = calculated_hash;
""")]),
    ("c17-aad-drops-filename", ["C17"], [], [(CORE + "encrypted_media/crypto.rs", """    aad.extend_from_slice(mime_type.as_bytes());
    aad.push(0x00);
    aad.extend_from_slice(filename.as_bytes());
    aad
""", """    aad.extend_from_slice(mime_type.as_bytes());
    aad.push(0x00);
    let _ = filename;
    aad
""")]),
    ("c17-context-drops-hash", ["C17"], [], [(CORE + "encrypted_media/crypto.rs", """    context.extend_from_slice(file_hash);
    context.push(0x00);
    context.extend_from_slice(mime_type.as_bytes());""", """    let _ = file_hash;
    context.push(0x00);
    context.extend_from_slice(mime_type.as_bytes());""")]),
    ("c17-decrypt-swaps-fields", ["C17"], [], [(CORE + "encrypted_media/manager.rs", """                    &reference.original_hash,
                    &reference.mime_type,
                    &reference.filename,
                )?;
                Self::decrypt_and_verify(encrypted_data, &key, reference)""", """                    &reference.original_hash,
                    &reference.filename,
                    &reference.mime_type,
                )?;
                Self::decrypt_and_verify(encrypted_data, &key, reference)""")]),
    ("c17-hash-check-inverted", ["C17"], [], [(CORE + "encrypted_media/manager.rs", "        if calculated_hash != reference.original_hash {", "        if calculated_hash == reference.original_hash {")]),
    ("c01-snapshot-failure-ignored", ["C01"], [], [(CORE + "messages/commit.rs", """            // Without a snapshot we can't guarantee MIP-03 convergence if a better commit arrives.
            return Err(Error::SnapshotCreationFailed(
                "snapshot creation failed".to_string(),
            ));
""", "")]),
    ("c02-content-from-wrapper", ["C02", "C03"], [], [(CORE + "messages/application.rs", "            content: rumor.content.clone(),", "            content: event.content.clone(),")]),
    ("c02-processed-record-conditional", ["C02"], [], [(CORE + "messages/application.rs", "        self.save_processed_message_record(processed_message.clone())?;", """        if group.last_message_id.is_some() {
            self.save_processed_message_record(processed_message.clone())?;
        }""")]),
    ("c02-config-skew-constant", ["C02"], [], [(CORE + "messages/validation.rs", "                .saturating_add(self.config.max_future_skew_secs)", "                .saturating_add(300)")]),
    ("c05-remove-members-no-admin-check", ["C05"], [], [(CORE + "groups.rs", """        if !self.is_leaf_node_admin(group_id, own_leaf)? {
            return Err(Error::Group(
                "Only group admins can remove members".to_string(),
            ));
        }""", "        let _ = own_leaf;")]),
    ("c06-unsafe-allowed", ["C06"], [], [(CORE + "lib.rs", "#![forbid(unsafe_code)]", "#![allow(unsafe_code)]")]),
    ("c06-h-tag-no-length-check", ["C06"], [], [(CORE + "messages/validation.rs", """        if group_id_hex.len() != 64 {
            return Err(Error::InvalidGroupIdFormat(format!(
                "expected 64 hex characters (32 bytes), got {} characters",
                group_id_hex.len()
            )));
        }
""", "")]),
    ("c06-identity-no-length-check", ["C06"], [], [(CORE + "key_packages.rs", """        if identity_bytes.len() != 32 {
            return Err(Error::KeyPackage(format!(
                "Invalid credential identity length: {} (expected 32)",
                identity_bytes.len()
            )));
        }
""", "")]),
    ("c06-validation-failure-marks-retryable", ["C06"], [], [(CORE + "messages/process.rs", """                if let Err(_save_err) = self.record_failure(event.id, &e, None, None) {
                    tracing::warn!(
                        target: "mdk_core::messages::process_message",
                        "Failed to persist failure record; error details redacted"
                    );
                }
                return Err(e);
            }
        };

        // Step 2: Load group and decrypt message""", """                if let Err(_save_err) = self.record_failure(event.id, &e, None, None) {
                    tracing::warn!(
                        target: "mdk_core::messages::process_message",
                        "Failed to persist failure record; error details redacted"
                    );
                }
                let _ = self.storage().mark_processed_message_retryable(&event.id);
                return Err(e);
            }
        };

        // Step 2: Load group and decrypt message""")]),
    ("c02-echo-created-marks-failed", ["C02"], [], [(CORE + "messages/error_handling.rs", """                        processed_message.state = message_types::ProcessedMessageState::Processed;
                        self.storage()
                            .save_processed_message(processed_message.clone())
                            .map_err(|_e| {
                                Error::Message(
                                    "Storage error while saving processed message".to_string(),
                                )
                            })?;

                        tracing::debug!(target: "mdk_core::messages::process_message", "Updated state of own cached message");""", """                        tracing::debug!(target: "mdk_core::messages::process_message", "Updated state of own cached message");""")]),
    ("c03-wrapper-carries-plaintext", ["C03"], [], [(CORE + "groups.rs", """        let event = EventBuilder::new(Kind::MlsGroupMessage, encrypted_content)
            .tag(tag)""", """        let _ = encrypted_content;
        let event = EventBuilder::new(Kind::MlsGroupMessage, hex::encode(&serialized_content))
            .tag(tag)""")]),
    ("c07-dedup-lookup-unchecked", ["C07"], [], [(CORE + "messages/process.rs", """            .find_processed_message_by_event_id(&event.id)
            .map_err(|_e| {
                Error::Message("Storage error while checking for processed message".to_string())
            })?
        {""", """            .find_processed_message_by_event_id(&event.id)
            .ok()
            .flatten()
        {""")]),
    ("c07-core-writes-epoch-invalidated", ["C07"], [], [(CORE + "messages/application.rs", "            state: message_types::MessageState::Processed,", "            state: message_types::MessageState::EpochInvalidated,")]),
    ("c08-h-tag-is-mls-group-id", ["C08"], [], [(CORE + "groups.rs", "        let tag: Tag = Tag::custom(TagKind::h(), [hex::encode(group.nostr_group_id)]);", "        let tag: Tag = Tag::custom(TagKind::h(), [hex::encode(group.mls_group_id.as_slice())]);")]),
    ("c09-rollback-consumes-all-snapshots", ["C09"], [], [(SQL + "lib.rs", """            // 4. Delete the consumed snapshot (may be no-op if CASCADE already deleted them)
            conn.execute(
                "DELETE FROM group_state_snapshots WHERE snapshot_name = ? AND group_id = ?",
                rusqlite::params![name, group_id_bytes],
            )""", """            // 4. Delete the consumed snapshot (may be no-op if CASCADE already deleted them)
            conn.execute(
                "DELETE FROM group_state_snapshots WHERE group_id = ?",
                rusqlite::params![group_id_bytes],
            )""")]),
    ("c09-memory-restore-skips-relays", ["C09"], [], [(MEM + "lib.rs", """        if !snapshot.group_relays.is_empty() {
            inner
                .group_relays_cache
                .put(group_id.clone(), snapshot.group_relays);
        }
""", "")]),
    ("c09-memory-restore-drops-messages", ["C09"], [], [(MEM + "lib.rs", """        inner.group_relays_cache.pop(group_id);

        // Remove all exporter secrets for this group""", """        inner.group_relays_cache.pop(group_id);
        inner.messages_by_group_cache.pop(group_id);

        // Remove all exporter secrets for this group""")]),
    ("c10-mapper-drops-failure-reason", ["C10"], [], [(SQL + "db.rs", """    let mls_group_id_blob: Option<&[u8]> = row.get_ref("mls_group_id")?.as_blob_or_null()?;
    let state_str: &str = row.get_ref("state")?.as_str()?;
    let failure_reason: Option<String> = row.get("failure_reason")?;""", """    let mls_group_id_blob: Option<&[u8]> = row.get_ref("mls_group_id")?.as_blob_or_null()?;
    let state_str: &str = row.get_ref("state")?.as_str()?;
    let failure_reason: Option<String> = None;""")]),
    ("c10-memory-processed-touches-messages", ["C10"], [], [(MEM + "messages.rs", """        inner
            .processed_messages_cache
            .put(processed_message.wrapper_event_id, processed_message);
""", """        inner.messages_cache.pop(&processed_message.wrapper_event_id);
        inner
            .processed_messages_cache
            .put(processed_message.wrapper_event_id, processed_message);
""")]),
    ("c11-self-update-required-as-one", ["C11"], [], [(SQL + "groups.rs", "            SelfUpdateState::Required => 0,", "            SelfUpdateState::Required => 1,")]),
    ("c11-new-volatile-cache", ["C11"], [], [(CORE + "lib.rs", """    /// Optional callback for events
    callback: Option<Arc<dyn MdkCallback>>,
}""", """    /// Optional callback for events
    callback: Option<Arc<dyn MdkCallback>>,
    /// Wrapper ids seen by this instance
    #[allow(dead_code)]
    seen_events: std::sync::Mutex<std::collections::HashSet<nostr::EventId>>,
}"""), (CORE + "lib.rs", """            epoch_snapshots,
            callback: self.callback,
        }""", """            epoch_snapshots,
            callback: self.callback,
            seen_events: Default::default(),
        }""")]),
    ("c13-foreign-keys-before-key", ["C13"], [], [(SQL + "lib.rs", """        let conn = Connection::open(file_path)?;

        // Apply encryption if configured (must be done before any other operations)""", """        let conn = Connection::open(file_path)?;
        conn.execute_batch("PRAGMA foreign_keys = ON;")?;

        // Apply encryption if configured (must be done before any other operations)""")]),
    ("c13-temp-store-not-pinned", ["C13"], [], [(SQL + "encryption.rs", """    conn.execute_batch("PRAGMA temp_store = MEMORY;")?;
""", "")]),
    ("c13-second-open", ["C13"], [], [(SQL + "lib.rs", """        if file_path.exists() && !encryption::is_database_encrypted(file_path)? {
            return Err(Error::UnencryptedDatabaseWithEncryption);
        }

        Self::new_internal(file_path, Some(config))""", """        if file_path.exists() && !encryption::is_database_encrypted(file_path)? {
            return Err(Error::UnencryptedDatabaseWithEncryption);
        }
        let _probe = Connection::open(file_path)?;

        Self::new_internal(file_path, Some(config))""")]),
    ("c13-encconfig-key-public", ["C13"], [], [(SQL + "encryption.rs", """    /// The 32-byte (256-bit) encryption key for SQLCipher.
    key: Secret<[u8; 32]>,""", """    /// The 32-byte (256-bit) encryption key for SQLCipher.
    pub key: Secret<[u8; 32]>,""")]),
    ("c14-error-carries-group-id", ["C14"], [], [(CORE + "groups.rs", """                "Only group admins can remove members".to_string(),""", """                format!("Only group admins can remove members of {}", hex::encode(group_id.as_slice())),""")]),
    ("c14-secret-display", ["C14"], [], [(TR + "secret.rs", """impl<T> fmt::Debug for Secret<T>
where
    T: zeroize::Zeroize,
{""", """impl<T> fmt::Display for Secret<T>
where
    T: zeroize::Zeroize + fmt::Debug,
{
    fn fmt(&self, f: &mut fmt::Formatter<'_>) -> fmt::Result {
        write!(f, "{:?}", self.0)
    }
}

impl<T> fmt::Debug for Secret<T>
where
    T: zeroize::Zeroize,
{""")]),
    ("c15-encode-url-safe-engine", ["C15"], [], [(CORE + "util.rs", "        ContentEncoding::Base64 => BASE64.encode(bytes),", "        ContentEncoding::Base64 => nostr::base64::engine::general_purpose::URL_SAFE.encode(bytes),")]),
    ("c15-image-hash-prefix-then-exact", ["C15"], [], [(CORE + "extension/types.rs", """                raw.image_hash
                    .try_into()
                    .map_err(|_| Error::InvalidImageHashLength)?,""", """                <[u8; 32]>::try_from(raw.image_hash.get(..32).ok_or(Error::InvalidImageHashLength)?)
                    .map_err(|_| Error::InvalidImageHashLength)?,""")]),
    ("c15-as-raw-key-from-hash", ["C15"], [], [(CORE + "extension/types.rs", "            image_key: self.image_key.map_or_else(Vec::new, |key| key.to_vec()),", "            image_key: self.image_hash.map_or_else(Vec::new, |key| key.to_vec()),")]),
    ("c16-welcome-dedup-unchecked", ["C16"], [], [(CORE + "welcomes.rs", """            .find_processed_welcome_by_event_id(wrapper_event_id)
            .map_err(|e| Error::Welcome(e.to_string()))?
        {""", """            .find_processed_welcome_by_event_id(wrapper_event_id)
            .ok()
            .flatten()
        {""")]),
    ("c16-missing-encoding-recorded-processed", ["C16"], [], [(CORE + "welcomes.rs", """                let error_string = "Missing required encoding tag".to_string();
                let processed_welcome = welcome_types::ProcessedWelcome {
                    wrapper_event_id: *wrapper_event_id,
                    welcome_event_id: welcome_event.id,
                    processed_at: Timestamp::now(),
                    state: welcome_types::ProcessedWelcomeState::Failed,""", """                let error_string = "Missing required encoding tag".to_string();
                let processed_welcome = welcome_types::ProcessedWelcome {
                    wrapper_event_id: *wrapper_event_id,
                    welcome_event_id: welcome_event.id,
                    processed_at: Timestamp::now(),
                    state: welcome_types::ProcessedWelcomeState::Processed,""")]),
    ("c17-image-hash-mismatch-only-logged", ["C17"], [], [(CORE + "extension/group_image.rs", """                return Err(GroupImageError::HashVerificationFailed {
                    expected: hex::encode(expected_hash),
                    actual: hex::encode(calculated_hash),
                });""", """                tracing::warn!(target: "mdk_core::extension::group_image", "group image blob hash mismatch");""")]),
    ("c19-snapshot-under-two-guards", ["C19"], [], [(MEM + "lib.rs", """        // Get MDK group data
        let group = inner.groups_cache.peek(group_id).cloned();""", """        // Get MDK group data
        drop(inner);
        let inner = self.inner.read();
        let group = inner.groups_cache.peek(group_id).cloned();""")]),
    ("c19-manager-relocks-own-mutex", ["C19"], [], [(CORE + "epoch_snapshots.rs", """        let mut inner = self.inner.lock().unwrap();
        let queue = inner.snapshots.entry(group_id.clone()).or_default();
        queue.push_back(snapshot);

        // Prune if needed (deferred slightly, or do it now)""", """        let mut inner = self.inner.lock().unwrap();
        self.ensure_hydrated(storage, group_id);
        let queue = inner.snapshots.entry(group_id.clone()).or_default();
        queue.push_back(snapshot);

        // Prune if needed (deferred slightly, or do it now)""")]),
    ("c20-snapshot-outside-manager", ["C20"], [], [(CORE + "messages/commit.rs", """        mls_group
            .merge_staged_commit(&self.provider, staged_commit)""", """        let _ = self.storage().create_group_snapshot(&group_id, "before-merge");
        mls_group
            .merge_staged_commit(&self.provider, staged_commit)""")]),
    ("c01-rollback-without-comparator", ["C01"], [], [(CORE + "messages/error_handling.rs", "                if is_better {\n                    tracing::info!(\"Found better commit for epoch {}. Rolling back.\", msg_epoch);", "                if is_better || msg_epoch > 0 {\n                    tracing::info!(\"Found better commit for epoch {}. Rolling back.\", msg_epoch);")]),
    ("c01-rollback-target-is-group-epoch", ["C01"], [], [(CORE + "messages/error_handling.rs", """                        self.storage(),
                        &group.mls_group_id,
                        msg_epoch,
                    ) {
                        Ok(_) => {""", """                        self.storage(),
                        &group.mls_group_id,
                        group.epoch,
                    ) {
                        Ok(_) => {""")]),
    ("c01-rollback-skips-message-invalidation", ["C01"], [], [(CORE + "messages/error_handling.rs", """                            let invalidated_messages = self
                                .storage()
                                .invalidate_messages_after_epoch(&group.mls_group_id, msg_epoch)
                                .unwrap_or_default();""", """                            let invalidated_messages: Vec<EventId> = Vec::new();""")]),
    ("c01-rollback-invalidates-from-epoch-zero", ["C01"], [], [(CORE + "messages/error_handling.rs", """                            let _ = self.storage().invalidate_processed_messages_after_epoch(
                                &group.mls_group_id,
                                msg_epoch,
                            );""", """                            let _ = self.storage().invalidate_processed_messages_after_epoch(
                                &group.mls_group_id,
                                0,
                            );""")]),
    ("c01-rollback-no-retry-marking", ["C01"], [], [(CORE + "messages/error_handling.rs", """                            for event_id in &messages_needing_refetch {
                                if self
                                    .storage()
                                    .mark_processed_message_retryable(event_id)
                                    .is_err()
                                {""", """                            for event_id in &messages_needing_refetch {
                                if event_id.to_hex().is_empty()
                                {""")]),
    ("c01-rollback-no-callback", ["C01"], [], [(CORE + "messages/error_handling.rs", """                                cb.on_rollback(&crate::RollbackInfo {
                                    group_id: group.mls_group_id.clone(),
                                    target_epoch: msg_epoch,
                                    new_head_event: event.id,
                                    invalidated_messages,
                                    messages_needing_refetch,
                                });""", """                                let _ = (cb, invalidated_messages, messages_needing_refetch);""")]),
    ("c01-rollback-no-reprocess", ["C01"], [], [(CORE + "messages/error_handling.rs", """                            // Recursively call process_message now that state is rolled back.
                            // This will reload the group and apply the new commit.
                            return self.process_message(event);""", """                            return Ok(MessageProcessingResult::PreviouslyFailed);""")]),
    ("c01-snapshot-filed-under-wrapper-ts-now", ["C01", "C07"], [], [(CORE + "messages/commit.rs", """            &event.id,
            event.created_at.as_secs(),
        ) {""", """            &event.id,
            std::time::SystemTime::now().duration_since(std::time::UNIX_EPOCH).map(|d| d.as_secs()).unwrap_or(0),
        ) {""")]),
    ("c04-author-guard-compares-wrong-key", ["C04"], [], [(CORE + "messages/application.rs", "        self.verify_rumor_author(&rumor.pubkey, sender_credential)?;", "        self.verify_rumor_author(&event.pubkey, sender_credential)?;")]),
    ("c04-stored-pubkey-from-wrapper", ["C04", "C02"], [], [(CORE + "messages/application.rs", "            pubkey: rumor.pubkey,", "            pubkey: event.pubkey,")]),
    ("c04-id-not-verified", ["C04"], [], [(CORE + "messages/application.rs", """        rumor
            .verify_id()
            .map_err(|_e| Error::Message("Rumor id does not match its content".to_string()))?;
""", "")]),
    ("c05-nonadmin-any-commit", ["C05"], [], [(CORE + "messages/validation.rs", """                    (false, false) => {
                        tracing::warn!(
                            target: "mdk_core::messages::process_commit",
                            "Received non-self-update commit from non-admin member at leaf index {:?}",
                            leaf_index
                        );
                        Err(Error::CommitFromNonAdmin)
                    }""", """                    (false, false) => {
                        tracing::warn!(
                            target: "mdk_core::messages::process_commit",
                            "Received non-self-update commit from non-admin member at leaf index {:?}",
                            leaf_index
                        );
                        Ok(())
                    }""")]),
    ("c05-whitelist-any-member-update", ["C05"], [], [(CORE + "messages/validation.rs", "            .all(|p| matches!(p.sender(), Sender::Member(idx) if idx == sender_leaf_index))", "            .all(|p| matches!(p.sender(), Sender::Member(_)))")]),
    ("c06-memory-unsafe-allowed", ["C06"], [], [(MEM + "lib.rs", "#![forbid(unsafe_code)]", "#![allow(unsafe_code)]")]),
    ("c07-retryable-blocked", ["C07"], [], [(CORE + "messages/process.rs", "            if is_failed || is_epoch_invalidated {", "            if is_failed || is_epoch_invalidated || processed.state == message_types::ProcessedMessageState::Retryable {")]),
    ("c08-sync-skips-name", ["C08"], [], [(CORE + "groups.rs", "        stored_group.name = group_data.name;\n", "")]),
    ("c08-own-merge-sync-only-for-self-update", ["C08"], [], [(CORE + "groups.rs", """        mls_group.merge_pending_commit(&self.provider)?;

        // Sync the stored group metadata with the updated MLS group state
        self.sync_group_metadata_from_mls(group_id)?;
""", """        mls_group.merge_pending_commit(&self.provider)?;

        // Sync the stored group metadata with the updated MLS group state
        if !is_self_update {
            self.sync_group_metadata_from_mls(group_id)?;
        }
""")]),
    ("c08-sync-from-stored-epoch", ["C08"], [], [(CORE + "groups.rs", "        stored_group.epoch = mls_group.epoch().as_u64();\n\n        // Update extension data from NostrGroupDataExtension", "        stored_group.epoch = stored_group.epoch + 1;\n\n        // Update extension data from NostrGroupDataExtension")]),
    ("c08-sync-keeps-relays", ["C08"], [], [(CORE + "groups.rs", """        // Sync relays atomically - replace entire relay set with current extension data
        self.storage()
            .replace_group_relays(group_id, group_data.relays)
            .map_err(|e| Error::Group(e.to_string()))?;

""", "")]),
    ("c09-memory-snapshot-unfiltered-proposals", ["C09"], [], [(MEM + "lib.rs", """            .filter(|((gid, _), _)| *gid == mls_group_id_bytes)
            .map(|((_, prop_ref), prop)| (prop_ref.clone(), prop.clone()))""", """            .filter(|((gid, _), _)| !gid.is_empty())
            .map(|((_, prop_ref), prop)| (prop_ref.clone(), prop.clone()))""")]),
    ("c09-memory-release-touches-live-state", ["C09"], [], [(MEM + "lib.rs", """        let key = (group_id.clone(), name.to_string());
        self.group_snapshots.write().remove(&key);
        Ok(())""", """        let key = (group_id.clone(), name.to_string());
        self.group_snapshots.write().remove(&key);
        self.inner.write().group_relays_cache.pop(group_id);
        Ok(())""")]),
    ("c10-memory-sort-ascending", ["C10", "C18"], [], [(MEM + "groups.rs", "                        messages.sort_by(|a, b| b.display_order_cmp(a));", "                        messages.sort_by(|a, b| a.display_order_cmp(b));")]),
    ("c10-sqlite-last-message-oldest", ["C10", "C18"], [], [(SQL + "groups.rs", """                    "SELECT * FROM messages WHERE mls_group_id = ? \\
                     ORDER BY created_at DESC, processed_at DESC, id DESC \\
                     LIMIT 1\"""", """                    "SELECT * FROM messages WHERE mls_group_id = ? \\
                     ORDER BY created_at ASC, processed_at DESC, id DESC \\
                     LIMIT 1\"""")]),
    ("c10-sqlite-messages-unscoped", ["C10", "C18"], [], [(SQL + "groups.rs", """                    "SELECT * FROM messages WHERE mls_group_id = ? \\
                     ORDER BY processed_at DESC, created_at DESC, id DESC \\
                     LIMIT ? OFFSET ?\"""", """                    "SELECT * FROM messages WHERE mls_group_id IS NOT ? \\
                     ORDER BY processed_at DESC, created_at DESC, id DESC \\
                     LIMIT ? OFFSET ?\"""")]),
    ("c10-memory-limit-not-validated", ["C10", "C18"], [], [(MEM + "groups.rs", """        if !(1..=MAX_MESSAGE_LIMIT).contains(&limit) {
            return Err(GroupError::InvalidParameters(format!(
                "Limit must be between 1 and {}, got {}",
                MAX_MESSAGE_LIMIT, limit
            )));
        }
""", "")]),
    ("c12-relays-release-on-error", ["C12"], [], [(SQL + "groups.rs", """                    let _ = conn.execute_batch(
                        "ROLLBACK TO SAVEPOINT mdk_replace_group_relays; \\
                         RELEASE SAVEPOINT mdk_replace_group_relays;",
                    );""", """                    let _ = conn.execute_batch("RELEASE SAVEPOINT mdk_replace_group_relays;");""")]),
    ("c12-relays-delete-before-savepoint", ["C12"], [], [(SQL + "groups.rs", """            conn.execute_batch("SAVEPOINT mdk_replace_group_relays")
                .map_err(into_group_err)?;

            let result: Result<(), GroupError> = (|| {
                conn.execute(
                    "DELETE FROM group_relays WHERE mls_group_id = ?",
                    params![group_id.as_slice()],
                )
                .map_err(into_group_err)?;
""", """            conn.execute(
                "DELETE FROM group_relays WHERE mls_group_id = ?",
                params![group_id.as_slice()],
            )
            .map_err(into_group_err)?;
            conn.execute_batch("SAVEPOINT mdk_replace_group_relays")
                .map_err(into_group_err)?;

            let result: Result<(), GroupError> = (|| {
""")]),
    ("c12-snapshot-commit-skipped-when-empty", ["C12"], [], [(SQL + "lib.rs", """        match result {
            Ok(()) => {
                conn.execute("COMMIT", [])
                    .map_err(|e| Error::Database(e.to_string()))?;
                Ok(())
            }
            Err(e) => {
                let _ = conn.execute("ROLLBACK", []);
                Err(e)
            }
        }
    }

    /// Snapshot helper: openmls_group_data table""", """        match result {
            Ok(()) => {
                if !name.is_empty() {
                    conn.execute("COMMIT", [])
                        .map_err(|e| Error::Database(e.to_string()))?;
                }
                Ok(())
            }
            Err(e) => {
                let _ = conn.execute("ROLLBACK", []);
                Err(e)
            }
        }
    }

    /// Snapshot helper: openmls_group_data table""")]),
    ("c13-keyring-generate-without-recheck", ["C13"], [], [(SQL + "keyring.rs", """    // Double-check after acquiring lock (another thread may have created it)
    if let Some(config) = get_db_key(service_id, db_key_id)? {
        return Ok(config);
    }
""", "")]),
    ("c13-existing-file-generates-key", ["C13"], [], [(SQL + "lib.rs", """                match keyring::get_db_key(service_id, db_key_id)? {
                    Some(config) => {""", """                match Some(keyring::get_or_create_db_key(service_id, db_key_id)?) {
                    Some(config) => {""")]),
    ("c13-with-key-accepts-plain-file", ["C13"], [], [(SQL + "lib.rs", """        if file_path.exists() && !encryption::is_database_encrypted(file_path)? {
            return Err(Error::UnencryptedDatabaseWithEncryption);
        }

        Self::new_internal(file_path, Some(config))""", """        Self::new_internal(file_path, Some(config))""")]),
    ("c13-no-validating-read", ["C13"], [], [(SQL + "encryption.rs", """    validate_encryption_key(conn)?;

    Ok(())""", """    let _ = validate_encryption_key(conn);

    Ok(())""")]),
    ("c13-sidecars-not-restricted", ["C13"], [], [(SQL + "lib.rs", """                if sidecar.exists() {
                    set_secure_file_permissions(&sidecar)?;
                }""", """                let _ = sidecar.exists();""")]),
    ("c13-directory-mode-755", ["C13"], [], [(SQL + "permissions.rs", "    let perms = std::fs::Permissions::from_mode(0o700);", "    let perms = std::fs::Permissions::from_mode(0o755);")]),
    ("c16-accept-stores-pending", ["C16"], [], [(CORE + "welcomes.rs", """            // Update group state
            group.state = group_types::GroupState::Active;""", """            // Update group state
            group.state = group_types::GroupState::Pending;""")]),
    ("c16-decline-stores-pending", ["C16"], [], [(CORE + "welcomes.rs", "            group.state = group_types::GroupState::Inactive;\n            self.storage()\n                .save_group(group)", "            group.state = group_types::GroupState::Pending;\n            self.storage()\n                .save_group(group)")]),
    ("c18-pointer-updates-two-fields", ["C18"], [], [(TR + "groups/types.rs", """            self.last_message_processed_at = Some(message.processed_at);
""", "")]),
    ("c18-pointer-not-saved", ["C18"], [], [(CORE + "messages/application.rs", """        if group.update_last_message_if_newer(&message) {
            self.save_group_record(group)?;
        }""", """        let _ = group.update_last_message_if_newer(&message);""")]),
    ("c20-retention-not-from-config", ["C20"], [], [(CORE + "lib.rs", """        let epoch_snapshots = Arc::new(EpochSnapshotManager::new(
            self.config.epoch_snapshot_retention,
        ));""", """        let epoch_snapshots = Arc::new(EpochSnapshotManager::new(64));""")]),
    ("c20-queue-cut-even-if-rollback-fails", ["C20"], [], [(CORE + "epoch_snapshots.rs", """                storage
                    .rollback_group_to_snapshot(group_id, &snapshot.snapshot_name)
                    .map_err(Error::Storage)?;
""", """                let rolled_back = storage
                    .rollback_group_to_snapshot(group_id, &snapshot.snapshot_name)
                    .map_err(Error::Storage);
                if rolled_back.is_err() {
                    tracing::warn!("storage rollback failed");
                }
""")]),
    ("c15-kp-kind-not-checked", ["C15"], [], [(CORE + "key_packages.rs", """        if event.kind != Kind::MlsKeyPackage {
            return Err(Error::UnexpectedEvent {
                expected: Kind::MlsKeyPackage,
                received: event.kind,
            });
        }

        // Validate tag format before parsing the key package content.""", """        // Validate tag format before parsing the key package content.""")]),
    ("c15-kp-signer-not-compared", ["C15"], [], [(CORE + "key_packages.rs", """        if credential_identity != event.pubkey {
            return Err(Error::KeyPackageIdentityMismatch {
                credential_identity: credential_identity.to_hex(),
                event_signer: event.pubkey.to_hex(),
            });
        }
""", """        let _ = credential_identity;
""")]),
    ("c15-kp-ref-not-recomputed", ["C15"], [], [(CORE + "key_packages.rs", """        self.validate_key_package_tags(event, Some(&key_package))?;

        Ok(key_package)""", """        Ok(key_package)""")]),
    ("c15-kp-i-tag-mismatch-accepted", ["C15"], [], [(CORE + "key_packages.rs", """            if i_tag_bytes != computed_ref.as_slice() {
                return Err(Error::KeyPackage(
                    "KeyPackageRef in i tag does not match computed value from content".to_string(),
                ));
            }""", """            let _ = (i_tag_bytes, computed_ref);""")]),
    ("c15-kp-any-protocol-version", ["C15"], [], [(CORE + "key_packages.rs", """        if *version_value != "1.0" {
            return Err(Error::KeyPackage(format!(
                "Unsupported protocol version: {}. Only version 1.0 is supported per MIP-00",
                version_value
            )));
        }
""", """        let _ = version_value;
""")]),
    ("c15-kp-empty-relays-accepted", ["C15"], [], [(CORE + "key_packages.rs", """        if relay_slice.len() <= 1 {
            return Err(Error::KeyPackage(
                "Relays tag must have at least one relay URL".to_string(),
            ));
        }
""", "")]),
    ("c15-kp-encoding-tag-defaulted", ["C15"], [], [(CORE + "key_packages.rs", """        let encoding = ContentEncoding::from_tags(event.tags.iter())
            .ok_or_else(|| Error::KeyPackage("Missing required encoding tag".to_string()))?;

        let key_package = self.parse_serialized_key_package(&event.content, encoding)?;""", """        let encoding = ContentEncoding::Base64;

        let key_package = self.parse_serialized_key_package(&event.content, encoding)?;""")]),
    ("c15-welcome-kind-not-checked", ["C15"], [], [(CORE + "welcomes.rs", """        if event.kind != Kind::MlsWelcome {
            return Err(Error::InvalidWelcomeMessage);
        }

        // 2. Validate minimum number of tags""", """        // 2. Validate minimum number of tags""")]),
    ("c03-evicted-group-stays-active", ["C03"], [], [(CORE + "messages/commit.rs", "                group.state = group_types::GroupState::Inactive;\n                self.save_group_record(group)?;", "                self.save_group_record(group)?;")]),
    ("c03-export-after-eviction", ["C03"], [], [(CORE + "messages/commit.rs", """        // Check if the local member was removed by this commit. The MLS group's own state says so;
        // the leaf at the own index does not: a member added by the same commit takes the vacated slot.
        if !mls_group.is_active() {
            return self.handle_local_member_eviction(&group_id, event);
        }

        // Save exporter secret for the new epoch
        self.exporter_secret(&group_id)?;
""", """        // Save exporter secret for the new epoch
        self.exporter_secret(&group_id)?;

        // Check if the local member was removed by this commit
        if !mls_group.is_active() {
            return self.handle_local_member_eviction(&group_id, event);
        }
""")]),
    ("c05-update-proposal-queued", ["C05"], [], [(CORE + "messages/proposal.rs", """                                    "Ignoring Update proposal - self-update handling not yet implemented (see issue #59)"
                                );

                                self.mark_processed(event, &group_id, mls_group.epoch().as_u64())?;
""", """                                    "Ignoring Update proposal - self-update handling not yet implemented (see issue #59)"
                                );

                                self.store_pending_proposal(
                                    mls_group,
                                    event,
                                    staged_proposal,
                                    &group_id,
                                )?;
""")]),
    ("c14-secret-debug-prints-value", ["C14"], [], [(TR + "secret.rs", """        // Don't leak secret in debug output
        write!(f, "Secret(***)")""", """        write!(f, "Secret({:02x?})", &self.0 as *const T as usize)""")]),
    ("c17-aad-drops-scheme-label", ["C17"], [], [(CORE + "encrypted_media/crypto.rs", """    let mut aad = Vec::new();
    aad.extend_from_slice(scheme_label);
    aad.push(0x00);""", """    let mut aad = Vec::new();
    let _ = scheme_label;
    aad.push(0x00);""")]),
    ("c17-hkdf-ikm-is-hash", ["C17"], [], [(CORE + "encrypted_media/crypto.rs", "    let hk = Hkdf::<Sha256>::new(None, exporter_secret.as_ref());", "    let hk = Hkdf::<Sha256>::new(None, original_hash.as_ref());")]),
    ("c17-scheme-label-unchecked", ["C17"], [], [(CORE + "encrypted_media/crypto.rs", """    let scheme_label = get_scheme_label(scheme_version)?;
    let context = build_hkdf_context(scheme_label, original_hash, mime_type, filename, b"key");
""", """    let scheme_label = get_scheme_label(scheme_version).unwrap_or(b"mip04-v2");
    let context = build_hkdf_context(scheme_label, original_hash, mime_type, filename, b"key");
""")]),
    ("c20-prune-under-second-lock", ["C20"], [], [(CORE + "epoch_snapshots.rs", """        queue.push_back(snapshot);

        // Prune if needed (deferred slightly, or do it now)""", """        queue.push_back(snapshot);
        drop(inner);
        let mut inner = self.inner.lock().unwrap();
        let queue = inner.snapshots.entry(group_id.clone()).or_default();

        // Prune if needed (deferred slightly, or do it now)""")]),
    ("c11-manager-never-lists-storage", ["C11"], [], [(CORE + "epoch_snapshots.rs", """        let stored_snapshots = match storage.list_group_snapshots(group_id) {
            Ok(snapshots) => snapshots,""", """        let stored_snapshots: Vec<(String, u64)> = match storage.prune_expired_snapshots(0).map(|_| Vec::new()) {
            Ok(snapshots) => snapshots,""")]),
    ("c02-tags-not-from-rumor", ["C02"], [], [(CORE + "messages/application.rs", "            tags: rumor.tags.clone(),", "            tags: event.tags.clone(),")]),
    ("c02-created-at-is-now", ["C02"], [], [(CORE + "messages/application.rs", "            created_at: rumor.created_at,", "            created_at: now,")]),
    ("c02-wrapper-id-is-rumor-id", ["C02"], [], [(CORE + "messages/application.rs", "            wrapper_event_id: event.id,\n            state: message_types::MessageState::Processed,", "            wrapper_event_id: rumor_id,\n            state: message_types::MessageState::Processed,")]),
    ("c02-message-not-saved", ["C02"], [], [(CORE + "messages/application.rs", "        self.save_message_record(message.clone())?;", "        if group.last_message_id.is_none() {\n            self.save_message_record(message.clone())?;\n        }")]),
    ("c08-upsert-keeps-old-routing-id", ["C10"], [], [(SQL + "groups.rs", "                nostr_group_id = excluded.nostr_group_id,\n                name = excluded.name,", "                name = excluded.name,")]),
    ("c08-unique-index-dropped", ["C08"], [], [("crates/mdk-sqlite-storage/migrations/V001__initial_schema.sql", "CREATE UNIQUE INDEX IF NOT EXISTS idx_groups_nostr_group_id ON groups(nostr_group_id);", "CREATE INDEX IF NOT EXISTS idx_groups_nostr_group_id ON groups(nostr_group_id);")]),
    ("c10-message-upsert-by-id-only", ["C10", "C18"], [], [(SQL + "messages.rs", "             ON CONFLICT(mls_group_id, id) DO UPDATE SET", "             ON CONFLICT(id) DO UPDATE SET")]),
    ("c10-message-upsert-drops-state", ["C10", "C18"], [], [(SQL + "messages.rs", "                 epoch = excluded.epoch,\n                 state = excluded.state\",", "                 epoch = excluded.epoch\",")]),
    ("c13-cipher-compat-not-pinned", ["C13"], [], [(SQL + "encryption.rs", "    conn.execute_batch(\"PRAGMA cipher_compatibility = 4;\")?;\n", "")]),
    ("c13-key-after-compat", ["C13"], [], [(SQL + "encryption.rs", """    conn.execute_batch(&format!("PRAGMA key = \\"{key}\\";"))?;

    // Pin SQLCipher 4.x defaults to prevent issues with future SQLCipher upgrades
    conn.execute_batch("PRAGMA cipher_compatibility = 4;")?;
""", """    conn.execute_batch("PRAGMA cipher_compatibility = 4;")?;
    conn.execute_batch(&format!("PRAGMA key = \\"{key}\\";"))?;
""")]),
    ("c13-key-logged", ["C13", "C14"], [], [(SQL + "encryption.rs", """    let key = config.to_sqlcipher_key();
""", """    let key = config.to_sqlcipher_key();
    tracing::debug!("keying connection with {}", key);
""")]),
    ("c13-wrong-key-generic-error", ["C13"], [], [(SQL + "encryption.rs", """            // This error typically means wrong key or not an encrypted database
            Err(Error::WrongEncryptionKey)""", """            // This error typically means wrong key or not an encrypted database
            Err(Error::Database("not a database".to_string()))""")]),
    ("c13-keyring-store-outside-lock", ["C13"], [], [(SQL + "keyring.rs", """    let lock = KEY_GENERATION_LOCK.get_or_init(|| Mutex::new(()));
    let _guard = lock
        .lock()
        .map_err(|e| Error::Keyring(format!("Failed to acquire key generation lock: {}", e)))?;
""", """    let lock = KEY_GENERATION_LOCK.get_or_init(|| Mutex::new(()));
    drop(
        lock.lock()
            .map_err(|e| Error::Keyring(format!("Failed to acquire key generation lock: {}", e)))?,
    );
""")]),
    ("c14-snapshot-debug-prints-name", ["C14"], [], [(CORE + "epoch_snapshots.rs", """            "EpochSnapshot {{ group_id: [REDACTED], epoch: {}, applied_commit_id: {:?}, applied_commit_ts: {}, snapshot_name: [REDACTED] }}",
            self.epoch, self.applied_commit_id, self.applied_commit_ts,""", """            "EpochSnapshot {{ group_id: [REDACTED], epoch: {}, applied_commit_id: {:?}, applied_commit_ts: {}, snapshot_name: {} }}",
            self.epoch, self.applied_commit_id, self.applied_commit_ts, self.snapshot_name,""")]),
    ("c19-storage-nested-lock", ["C19"], [], [(MEM + "lib.rs", """        let snapshot = self.create_group_scoped_snapshot(group_id);
        self.group_snapshots
            .write()
            .insert((group_id.clone(), name.to_string()), snapshot);""", """        let mut snapshots = self.group_snapshots.write();
        let snapshot = self.create_group_scoped_snapshot(group_id);
        snapshots.insert((group_id.clone(), name.to_string()), snapshot);""")]),
    ("c20-sqlite-prune-by-name", ["C20"], [], [(SQL + "lib.rs", """                "DELETE FROM group_state_snapshots WHERE created_at < ?",
                rusqlite::params![min_timestamp as i64],""", """                "DELETE FROM group_state_snapshots WHERE created_at > ?",
                rusqlite::params![min_timestamp as i64],""")]),
    ("c02-echo-failed-arm-rewrites-record", ["C02"], [], [(CORE + "messages/error_handling.rs", """                        tracing::debug!(target: "mdk_core::messages::process_message", "Message cannot be processed (already processed, failed, or epoch invalidated)");
                        Ok(MessageProcessingResult::Unprocessable {""", """                        tracing::debug!(target: "mdk_core::messages::process_message", "Message cannot be processed (already processed, failed, or epoch invalidated)");
                        processed_message.state = message_types::ProcessedMessageState::Processed;
                        let _ = self.storage().save_processed_message(processed_message.clone());
                        Ok(MessageProcessingResult::Unprocessable {""")]),
    ("c07-invalidate-before-rollback", ["C07"], [], [(CORE + "messages/error_handling.rs", """                if is_better {
                    tracing::info!("Found better commit for epoch {}. Rolling back.", msg_epoch);
""", """                if is_better {
                    tracing::info!("Found better commit for epoch {}. Rolling back.", msg_epoch);
                    let _ = self
                        .storage()
                        .invalidate_messages_after_epoch(&group.mls_group_id, msg_epoch);
""")]),
    ("c08-incoming-lookup-by-pubkey", ["C08"], [], [(CORE + "messages/decryption.rs", "            .find_group_by_nostr_group_id(&nostr_group_id)\n            .map_err(|_e| Error::Group(\"Storage error while finding group\".to_string()))?", "            .find_group_by_nostr_group_id(&event.pubkey.to_bytes())\n            .map_err(|_e| Error::Group(\"Storage error while finding group\".to_string()))?")]),
    ("c08-memory-index-not-written", ["C08"], [], [(MEM + "groups.rs", "        nostr_id_cache.put(group.nostr_group_id, group);\n", "        let _ = (&nostr_id_cache, &group);\n")]),
    ("c17-image-context-collision", ["C17"], [], [(CORE + "extension/group_image.rs", 'const UPLOAD_KEYPAIR_CONTEXT_V2: &[u8] = b"mip01-blossom-upload-v2";', 'const UPLOAD_KEYPAIR_CONTEXT_V2: &[u8] = b"mip01-image-encryption-v2";')]),
    ("c17-epoch-hint-skips-hash-check", ["C17"], [], [(CORE + "encrypted_media/manager.rs", """            epoch
        );

        Self::decrypt_and_verify(encrypted_data, &key, reference)""", """            epoch
        );

        decrypt_data_with_aad(
            encrypted_data,
            &key,
            &Secret::new(reference.nonce),
            &reference.scheme_version,
            &reference.original_hash,
            &reference.mime_type,
            &reference.filename,
        )""")]),
    ("c18-comparator-id-first", ["C18", "C10"], [], [(TR + "messages/types.rs", """        a_created_at
            .cmp(&b_created_at)
            .then_with(|| a_processed_at.cmp(&b_processed_at))
            .then_with(|| a_id.cmp(&b_id))""", """        a_created_at
            .cmp(&b_created_at)
            .then_with(|| a_id.cmp(&b_id))
            .then_with(|| a_processed_at.cmp(&b_processed_at))""")]),
    ("c18-pointer-uses-created-at-only", ["C18"], [], [(TR + "groups/types.rs", """                Message::compare_display_keys(
                    message.created_at,
                    message.processed_at,
                    message.id,
                    existing_at,
                    existing_processed_at,
                    existing_id,
                )
                .is_gt()""", """                {
                    let _ = (existing_processed_at, existing_id);
                    message.created_at > existing_at
                }""")]),
    ("c15-from-raw-swaps-name-description", ["C15"], [], [(CORE + "extension/types.rs", """            name: String::from_utf8(raw.name)?,
            description: String::from_utf8(raw.description)?,
            admins,""", """            name: String::from_utf8(raw.description)?,
            description: String::from_utf8(raw.name)?,
            admins,""")]),
    ("c15-from-raw-version-zero-accepted", ["C15"], [], [(CORE + "extension/types.rs", """        if raw.version == 0 {
            return Err(Error::InvalidExtensionVersion(raw.version));
        }
""", "")]),
    ("c03-wrapper-key-is-ephemeral", ["C03"], [], [(CORE + "groups.rs", "        let export_nostr_keys: Keys = Keys::new(secret_key);", "        let export_nostr_keys: Keys = Keys::generate();\n        let _ = secret_key;")]),
    ("c10-state-string-renamed-one-way", ["C10"], [], [(TR + "messages/types.rs", """            Self::Deleted => "deleted",
            Self::EpochInvalidated => "epoch_invalidated",
        }""", """            Self::Deleted => "deleted",
            Self::EpochInvalidated => "invalidated",
        }""")]),
    ("c13-stored-key-differs-from-generated", ["C13"], [], [(SQL + "keyring.rs", "    entry.set_secret(config.key()).map_err(|e| match e {", "    entry.set_secret(&[0u8; 32]).map_err(|e| match e {")]),
    ("c15-welcome-encoding-defaulted", ["C15"], [], [(CORE + "welcomes.rs", """        let encoding = match ContentEncoding::from_tags(welcome_event.tags.iter()) {
            Some(enc) => enc,
            None => {""", """        let encoding = match Some(ContentEncoding::Base64) {
            Some(enc) => enc,
            None => {""")]),
    ("c17-decrypt-own-aad", ["C17"], [], [(CORE + "encrypted_media/crypto.rs", """    let scheme_label = get_scheme_label(scheme_version)?;
    let aad = build_aad(scheme_label, file_hash, mime_type, filename);

    cipher
        .decrypt(""", """    let scheme_label = get_scheme_label(scheme_version)?;
    let mut aad = scheme_label.to_vec();
    aad.extend_from_slice(file_hash);
    aad.extend_from_slice(mime_type.as_bytes());
    aad.extend_from_slice(filename.as_bytes());

    cipher
        .decrypt(""")]),
    ("c17-decrypt-aad-swapped-args", ["C17"], [], [(CORE + "encrypted_media/crypto.rs", """    let aad = build_aad(scheme_label, file_hash, mime_type, filename);

    cipher
        .decrypt(""", """    let aad = build_aad(scheme_label, file_hash, filename, mime_type);

    cipher
        .decrypt(""")]),
    ("c09-snapshot-misses-exporter-secrets", ["C09"], [], [(SQL + "lib.rs", """            Self::snapshot_group_exporter_secrets(
                &conn,
                &mut insert_stmt,
                name,
                group_id_bytes,
                now,
            )?;
""", "")]),
    ("c16-relays-saved-before-dedup", ["C16"], [], [(CORE + "welcomes.rs", """        // Validate welcome event structure per MIP-02
        Self::validate_welcome_event(rumor_event)?;
""", """        // Validate welcome event structure per MIP-02
        Self::validate_welcome_event(rumor_event)?;
        let _ = self.storage().save_processed_welcome(welcome_types::ProcessedWelcome {
            wrapper_event_id: *wrapper_event_id,
            welcome_event_id: rumor_event.id,
            processed_at: Timestamp::now(),
            state: welcome_types::ProcessedWelcomeState::Processed,
            failure_reason: None,
        });
""")]),
    ("c13-keyring-ids-swapped", ["C13"], [], [(SQL + "lib.rs", "                keyring::get_or_create_db_key(service_id, db_key_id)?", "                keyring::get_or_create_db_key(db_key_id, service_id)?")]),
    ("c17-aad-name-and-type-swapped-at-builder", ["C17"], [], [(CORE + "encrypted_media/crypto.rs", """    let context = build_hkdf_context(scheme_label, original_hash, mime_type, filename, b"key");""", """    let context = build_hkdf_context(scheme_label, original_hash, filename, mime_type, b"key");""")]),
    ("c20-no-prune-after-hydration", ["C20"], [], [(CORE + "epoch_snapshots.rs", """        // Enforce retention limit after hydration
        while queue.len() > self.retention_count {
            if let Some(old_snap) = queue.pop_front() {
                let _ = storage.release_group_snapshot(&old_snap.group_id, &old_snap.snapshot_name);
            }
        }
""", "")]),
    ("c20-retention-plus-one", ["C20"], [], [(CORE + "epoch_snapshots.rs", """        while queue.len() > self.retention_count {
            if let Some(old_snap) = queue.pop_front() {
                // Best effort release""", """        while queue.len() > self.retention_count + 1 {
            if let Some(old_snap) = queue.pop_front() {
                // Best effort release""")]),
    ("c20-ttl-wrong-field", ["C20"], [], [(CORE + "lib.rs", "let min_timestamp = current_time.saturating_sub(self.config.snapshot_ttl_seconds);", "let min_timestamp = current_time.saturating_sub(self.config.max_event_age_secs);")]),
    ("c20-rollback-no-release", ["C20"], [], [(CORE + "epoch_snapshots.rs", """                    if i > 0 {
                        let _ = storage.release_group_snapshot(&snap.group_id, &snap.snapshot_name);
                    }""", "                    let _ = (i, &snap);")]),
]


EQ = os.path.join(HERE, "equiv")

# behaviour-preserving refactors: every listed check must stay SILENT (exit 0) on them — a check that fires here is a false alarm
EQUIV = [
    ("eq-welcome-guard-in-helper", ["C16", "C06", "C03", "C08", "C12"], [os.path.join(EQ, "welcome_guard_in_helper.diff")], []),
    ("eq-rollback-bookkeeping-helper", ["C01", "C02", "C07", "C12", "C18", "C05", "C06"], [os.path.join(EQ, "rollback_bookkeeping_helper.diff")], []),
    ("eq-filename-validator-max-param", ["C17", "C06", "C14", "C12"], [os.path.join(EQ, "filename_validator_with_max_param.diff")], []),
    ("eq-memory-put-group-helper", ["C08", "C09", "C10", "C19", "C06", "C12"], [os.path.join(EQ, "memory_put_group_helper.diff")], []),
    # not behaviour-preserving: a partial repair sketch for F20 (name / description bounded at decode time, before the merge); the checks
    # must accept it (the four name / description obligations are discharged, nothing new fires)
    ("eq-repair-sketch-F20-name-description-bounds", ["C06", "C08", "C15", "C05", "C12"], [os.path.join(EQ, "repair_sketch_f20_name_description_bounds.diff")], []),
    ("eq-c20-release-loop-skip-one", ["C20", "C11", "C09", "C12"], [], [(CORE + "epoch_snapshots.rs", '                for (i, snap) in removed.into_iter().enumerate() {\n                    // Skip the first one (index 0) - it was already consumed by rollback\n                    if i > 0 {\n                        let _ = storage.release_group_snapshot(&snap.group_id, &snap.snapshot_name);\n                    }\n                }', '                for snap in removed.into_iter().skip(1) {\n                    let _ = storage.release_group_snapshot(&snap.group_id, &snap.snapshot_name);\n                }')]),
    ("eq-sqlite-welcome-validation-helper", ["C16", "C06", "C10", "C12"], [os.path.join(EQ, "sqlite_welcome_validation_helper.diff")], []),
    ("eq-memory-sort-by-key", ["C18", "C10", "C06", "C12"], [os.path.join(EQ, "memory_sort_by_key.diff")], []),
    ("eq-unrelated-additions", ["C%02d" % i for i in range(1, 21)], [os.path.join(EQ, "unrelated_additions.diff")], []),
    ("eq-lookup-and-persist-helpers", ["C01", "C02", "C03", "C06", "C07", "C08", "C14", "C16", "C12"], [os.path.join(EQ, "lookup_and_persist_helpers.diff")], []),
    ("eq-admin-helper", ["C05", "C14", "C06", "C12"], [os.path.join(EQ, "admin_helper.diff")], []),
    ("eq-permissions-mode-at-create", ["C13", "C12"], [os.path.join(EQ, "permissions_mode_at_create.diff")], []),
    ("eq-hydration-refactor", ["C01", "C07", "C11", "C20", "C06", "C14", "C12"], [os.path.join(EQ, "hydration_refactor.diff")], []),
    ("eq-memory-snapshot-loops", ["C09", "C19", "C06", "C10", "C12"], [os.path.join(EQ, "memory_snapshot_loops.diff")], []),
    ("eq-benign-logging", ["C14", "C06", "C12"], [os.path.join(EQ, "benign_logging.diff")], []),
    ("eq-sqlite-restore-reorder", ["C09", "C12", "C19", "C10"], [os.path.join(EQ, "sqlite_restore_reorder.diff")], []),
    ("eq-sqlite-restore-format-sql", ["C09", "C12"], [os.path.join(EQ, "sqlite_restore_format.diff")], []),
    ("eq-memory-restore-reorder", ["C09", "C08", "C10", "C19", "C06", "C12"], [os.path.join(EQ, "memory_restore_reorder.diff")], []),
    ("eq-media-refactor", ["C17", "C06", "C14", "C12"], [os.path.join(EQ, "media_refactor.diff")], []),
    ("eq-authorization-loops", ["C05", "C06", "C04", "C12"], [os.path.join(EQ, "authorization_loops.diff")], []),
    ("eq-lookback-arithmetic", ["C02", "C06", "C12"], [os.path.join(EQ, "lookback_arith.diff")], []),
    ("eq-keypackage-manual-exact-decode", ["C15", "C06", "C14", "C04", "C12"], [os.path.join(EQ, "keypackage_refactor.diff")], []),
    ("eq-dedup-helper", ["C01", "C02", "C06", "C07", "C14", "C12"], [os.path.join(EQ, "dedup_helper.diff")], []),
    ("eq-memory-refactor", ["C06", "C08", "C10", "C18", "C19", "C12"], [os.path.join(EQ, "memory_refactor.diff")], []),
    ("eq-sqlite-open-inline", ["C13", "C09", "C12", "C14"], [os.path.join(EQ, "sqlite_open_inline.diff")], []),
    ("eq-welcome-refactor", ["C03", "C08", "C14", "C15", "C16", "C12"], [os.path.join(EQ, "welcome_refactor.diff")], []),
    ("eq-application-helpers", ["C02", "C03", "C04", "C06", "C07", "C14", "C17", "C18", "C12"], [os.path.join(EQ, "application_helpers.diff")], []),
    ("eq-sql-formatting", ["C02", "C07", "C08", "C09", "C10", "C12", "C18", "C19"], [os.path.join(EQ, "sql_formatting.diff")], []),
    ("eq-commit-helpers", ["C01", "C03", "C05", "C06", "C07", "C08", "C14", "C12"], [os.path.join(EQ, "commit_helpers.diff")], []),
    ("eq-c12-raii-transaction", ["C12", "C09", "C19"], [os.path.join(EQ, "c12_raii_transaction.diff")], []),
    ("eq-c20-release-in-place-then-truncate", ["C11", "C20", "C12"], [], [(CORE + "epoch_snapshots.rs", """                let removed = queue.split_off(index);
                for (i, snap) in removed.into_iter().enumerate() {
                    // Skip the first one (index 0) - it was already consumed by rollback
                    if i > 0 {
                        let _ = storage.release_group_snapshot(&snap.group_id, &snap.snapshot_name);
                    }
                }""", """                for snap in queue.iter().skip(index + 1) {
                    let _ = storage.release_group_snapshot(&snap.group_id, &snap.snapshot_name);
                }
                queue.truncate(index);""")]),
]


# behaviour-preserving refactors written by independent sub-agents (equiv/agent/<property>-<n>.diff, with the agent's argument in the
# .json next to it): every check must stay silent on every one of them
import glob as _glob
for _p in sorted(_glob.glob(os.path.join(EQ, "agent*", "*.diff"))):
    EQUIV.append(("eq-" + os.path.basename(os.path.dirname(_p)) + "-" + os.path.basename(_p)[:-5], ["C%02d" % i for i in range(1, 21)], [_p], []))


def seeded():
    """confirmed changes written by independent sub-agents (seeded/<id>/patch.diff); expected = recorded in caught_by"""
    out = []
    sd = os.path.join(VERIF, "seeded")
    if os.path.isdir(sd):
        for d in sorted(os.listdir(sd)):
            mp = os.path.join(sd, d, "meta.json")
            pp = os.path.join(sd, d, "patch.diff")
            if os.path.exists(mp) and os.path.exists(pp):
                m = json.load(open(mp))
                exp = m.get("caught_by") or []
                out.append(("seeded-" + d, exp, [pp], []))
    return out


KEYS = {}      # mutant -> check -> violated obligation keys (filled by run_one)


def run_one(m, tier="quick"):
    name, expect, patches, subs = m
    d = tempfile.mkdtemp(prefix="mdk-st-", dir=os.environ.get("TMPDIR", "/tmp"))
    try:
        subprocess.run(["rsync", "-a", "--exclude", "target", "--exclude", ".git", "--exclude", "trees", "/repo/", d + "/"], check=True)
        for p in patches:
            pp = p if os.path.isabs(p) else os.path.join(P, p)
            r = subprocess.run(["git", "apply", "--unsafe-paths", "--directory", d, pp], cwd="/", capture_output=True, text=True)
            if r.returncode != 0:
                # the tree moved on since the patch was recorded (later fix: commits): retry with context fuzz
                r2 = subprocess.run("patch -p1 --fuzz=3 --no-backup-if-mismatch -d %s < %s" % (d, pp), shell=True, capture_output=True, text=True)
                if r2.returncode != 0:
                    return name, "skipped", "patch does not apply: " + r.stderr[-200:], {}
        for f, old, new in subs:
            fp = os.path.join(d, f)
            s = open(fp).read()
            if s.count(old) != 1:
                return name, "skipped", "anchor text occurs %d times in %s" % (s.count(old), f), {}
            open(fp, "w").write(s.replace(old, new))
        res = {}
        for cid in expect:
            env = dict(os.environ, MDK_REPO=d, MDK_EVIDENCE_DIR=os.path.join(d, ".evidence"))
            r = subprocess.run([os.path.join(VERIF, "check"), cid, tier], capture_output=True, text=True, env=env)
            res[cid] = r.returncode
            rp = os.path.join(d, ".evidence", "replay", "%s.json" % cid)
            if r.returncode == 1 and os.path.exists(rp):
                try:
                    KEYS.setdefault(name, {})[cid] = sorted(set(v["key"] for v in json.load(open(rp))["violations"]))
                except Exception:
                    pass
        fired = [c for c, rc in res.items() if rc == 1]
        errors = [c for c, rc in res.items() if rc not in (0, 1)]
        if errors:
            return name, "error", "checks %s ended with an error exit" % errors, res
        if name.startswith("eq-"):
            if fired:
                return name, "FALSE-ALARM", "%s fired on a behaviour-preserving refactor: %s" % (fired, KEYS.get(name)), res
            return name, "silent", "", res
        if not expect:
            return name, "unassigned", "no expected check recorded", res
        if set(fired) == set(expect):
            return name, "killed", "", res
        if fired:
            return name, "partly", "fired %s, silent %s" % (fired, sorted(set(expect) - set(fired))), res
        return name, "SURVIVED", "expected %s to fire" % expect, res
    finally:
        shutil.rmtree(d, ignore_errors=True)


def main():
    ap = argparse.ArgumentParser()
    ap.add_argument("--only", default="")
    ap.add_argument("-j", type=int, default=6)
    ap.add_argument("--json", default="")
    ap.add_argument("--matrix", default="", help="write rule -> killing mutants (and rules no mutant kills) to this file")
    a = ap.parse_args()
    ms = MUTANTS + seeded() + EQUIV
    if a.only:
        want = set(a.only.split(","))
        ms = [m for m in ms if want & set(m[1])]
        ms = [(n, [c for c in e if c in want], p, s) for n, e, p, s in ms]
    results = []
    with cf.ThreadPoolExecutor(max_workers=a.j) as ex:
        for r in ex.map(run_one, ms):
            results.append(r)
            print("%-34s %-9s %s" % (r[0], r[1], r[2]))
            sys.stdout.flush()
    summ = {}
    for r in results:
        summ[r[1]] = summ.get(r[1], 0) + 1
    print("SUMMARY", json.dumps(summ))
    if a.matrix:
        byrule = {}
        for mname, per in KEYS.items():
            for cid, keys in per.items():
                for k in keys:
                    rule = "/".join(k.split("/")[:2])
                    byrule.setdefault(rule, set()).add(mname)
        allrules = set()
        obd = os.path.join(VERIF, "evidence", "obligations")
        for fn in sorted(os.listdir(obd)) if os.path.isdir(obd) else []:
            for o in json.load(open(os.path.join(obd, fn))):
                allrules.add("/".join(o["key"].split("/")[:2]))
        allkeys, killed_keys = set(), set()
        for fn in sorted(os.listdir(obd)) if os.path.isdir(obd) else []:
            for o in json.load(open(os.path.join(obd, fn))):
                allkeys.add(o["key"])
        for per in KEYS.values():
            for keys in per.values():
                killed_keys |= set(keys)
        json.dump({"killed_by": {r: sorted(v) for r, v in sorted(byrule.items())},
                   "rules_without_mutant": sorted(allrules - set(byrule)),
                   "obligation_keys": len(allkeys), "keys_violated_by_some_mutant": len(allkeys & killed_keys),
                   "keys_never_violated": sorted(allkeys - killed_keys),
                   "mutant_keys": {m: per for m, per in sorted(KEYS.items())}}, open(a.matrix, "w"), indent=1)
    if a.json:
        json.dump([{"name": r[0], "status": r[1], "detail": r[2], "exits": r[3]} for r in results], open(a.json, "w"), indent=1)
    return 0 if not any(r[1] in ("SURVIVED", "error", "partly") for r in results) else 1


if __name__ == "__main__":
    sys.exit(main())
