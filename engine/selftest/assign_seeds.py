#!/usr/bin/env python3
"""For every confirmed seeded change run all claimed checks against it and record which ones fire (meta.json: caught_by)."""
import concurrent.futures as cf
import json
import os
import sys
sys.path.insert(0, os.path.dirname(os.path.abspath(__file__)))
import suite

ALL = ["C%02d" % i for i in range(1, 21)]


def one(d):
    sd = os.path.join(suite.VERIF, "seeded", d)
    name, status, detail, res = suite.run_one(("seeded-" + d, ALL, [os.path.join(sd, "patch.diff")], []))
    fired = sorted(c for c, rc in res.items() if rc == 1)
    errs = sorted(c for c, rc in res.items() if rc not in (0, 1))
    mp = os.path.join(sd, "meta.json")
    m = json.load(open(mp))
    m["caught_by"] = fired
    m["check_errors"] = errs
    json.dump(m, open(mp, "w"), indent=1)
    return d, fired, errs


if __name__ == "__main__":
    ds = sorted(x for x in os.listdir(os.path.join(suite.VERIF, "seeded")) if os.path.exists(os.path.join(suite.VERIF, "seeded", x, "patch.diff")))
    if len(sys.argv) > 1:
        ds = [d for d in ds if d in sys.argv[1:]]
    with cf.ThreadPoolExecutor(max_workers=10) as ex:
        for d, fired, errs in ex.map(one, ds):
            print(d, "caught by", fired, ("ERRORS " + str(errs)) if errs else "")
            sys.stdout.flush()
