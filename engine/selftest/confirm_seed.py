#!/usr/bin/env python3
"""Confirm a seeded change produced by a sub-agent: in a scratch worktree of /repo (outside /repo and /verif)
  1. demo only            -> the demonstration test PASSES
  2. demo + patch         -> the demonstration test FAILS
  3. patch only           -> the existing workspace suite PASSES
and store patch, demo and meta.json under /verif/seeded/<id>/.
usage: confirm_seed.py <seed-dir> <worktree> <seed-id>   (worktree: an existing git worktree of /repo at HEAD, clean)"""
import json
import os
import re
import shutil
import subprocess
import sys

VERIF = os.path.dirname(os.path.dirname(os.path.dirname(os.path.abspath(__file__))))


def sh(cmd, cwd, env=None, timeout=3600):
    r = subprocess.run(cmd, cwd=cwd, shell=True, capture_output=True, text=True, env=env, timeout=timeout)
    return r.returncode, (r.stdout + r.stderr)


def main():
    seed, wt, sid = sys.argv[1], sys.argv[2], sys.argv[3]
    env = dict(os.environ, CARGO_TARGET_DIR=os.path.join(wt, "target"), CARGO_NET_OFFLINE="true")
    patch = os.path.join(seed, "patch.diff")
    demo = os.path.join(seed, "demo.diff")
    meta_in = json.load(open(os.path.join(seed, "meta.json")))
    clean = "git checkout -q -- . && git clean -qfd -e target"
    sh(clean, wt)
    # rebase worktree on /repo HEAD
    sh("git checkout -q --detach $(git -C /repo rev-parse HEAD)", wt)
    d = open(demo).read()
    tests = re.findall(r"^\+\s*#\[(?:tokio::)?test[^\]]*\]\s*\n(?:\+\s*#\[[^\n]*\n)*\+\s*(?:pub )?(?:async )?fn (\w+)\s*\(", d, re.M)
    if not tests:
        tests = re.findall(r"^\+\s*(?:pub )?fn (test_\w+)\s*\(", d, re.M)
    files = re.findall(r"^\+\+\+ b/(\S+)", d, re.M)
    crate = files[0].split("/")[1] if files else "mdk-core"
    if not tests:
        print("no test fn found in demo.diff"); return 2
    tname = tests[0]
    newfile = [f for f in files if "/tests/" in f]
    if newfile:
        tname = "--test " + os.path.basename(newfile[0])[:-3]
    out = {"seed_id": sid, "property": meta_in.get("property"), "title": meta_in.get("title"), "what_breaks": meta_in.get("what_breaks"),
           "needs_to_manifest": meta_in.get("needs_to_manifest"), "files_touched": meta_in.get("files_touched"), "demo_test": tname, "ran": []}
    feat = ""
    if "encrypted_media" in d + open(patch).read() or "mip04" in json.dumps(meta_in):
        feat = "--features mip04"
    rc, o = sh("git apply %s" % demo, wt)
    if rc != 0:
        print("demo does not apply:", o[-500:]); return 2
    cmd = "cargo test --offline -p %s %s %s -- --test-threads 2" % (crate, feat, tname)
    rc1, o1 = sh(cmd, wt, env)
    passed1 = rc1 == 0 and re.search(r"test result: ok\. [1-9]", o1) is not None
    out["ran"].append({"cmd": cmd + "   [demo only]", "exit": rc1, "passes": passed1})
    rc, o = sh("git apply %s" % patch, wt)
    if rc != 0:
        print("patch does not apply:", o[-500:]); sh(clean, wt); return 2
    rc2, o2 = sh(cmd, wt, env)
    failed2 = rc2 != 0 and "FAILED" in o2
    msg = ""
    m = re.search(r"panicked at [^\n]*\n([^\n]*)", o2)
    if m:
        msg = m.group(1)[:300]
    out["ran"].append({"cmd": cmd + "   [demo + patch]", "exit": rc2, "fails": failed2, "message": msg})
    # suite with the patch only
    sh(clean, wt)
    sh("git apply %s" % patch, wt)
    cmd3 = "cargo test --workspace --no-fail-fast --offline"
    rc3, o3 = sh(cmd3, wt, env, timeout=7200)
    nfail = len(re.findall(r"test result: FAILED", o3))
    npass = sum(int(x) for x in re.findall(r"test result: ok\. (\d+) passed", o3))
    out["ran"].append({"cmd": cmd3 + "   [patch only]", "exit": rc3, "passed": npass, "failed_binaries": nfail})
    sh(clean, wt)
    out["confirmed"] = bool(passed1 and failed2 and rc3 == 0)
    dst = os.path.join(VERIF, "seeded", sid)
    os.makedirs(dst, exist_ok=True)
    shutil.copy(patch, os.path.join(dst, "patch.diff"))
    shutil.copy(demo, os.path.join(dst, "demo.diff"))
    json.dump(out, open(os.path.join(dst, "meta.json"), "w"), indent=1)
    print(sid, "confirmed" if out["confirmed"] else "NOT CONFIRMED", json.dumps(out["ran"])[:600])
    return 0


if __name__ == "__main__":
    sys.exit(main())
